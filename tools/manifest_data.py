HOOK_COMMITS = ["35ab1c0"]
NOTES = ("All checks: ./check.sh <id> <tier>. Each run regenerates coq/Gen from /repo, rebuilds the proofs (full .vo), "
         "rebuilds the Go harness from /repo's working tree, runs the real code on generated cases and evaluates the Coq model on "
         "the same cases. Trusted base and per-property limits: DESIGN.md sections 4 and 6, and each evidence file.")
NOT_YET = {}
CHECKS = {
    "C06": {
        "text": "Theorems (Props/C06.v) over the Gallina model of the amplification loop of HandleNewUser / HandleUpdateUser-create and of "
                "HandleDisconnectUser: for ALL creator bitmaps and request field contents the created account holds copy8(request) and "
                "no bit the creator lacks; excess is refused, subsets accepted; a target with cannot-be-disconnected is never closed or "
                "banned for any option bytes. The model is tied to the code by a correspondence check on every run (all single-bit pairs, "
                "random bitmaps, short/long fields, all ban options) against the real handlers, account manager and ban file; the property "
                "oracle is also evaluated directly on what the real code did (memory and disk).",
        "note": "Trusted: Coq kernel; the hand-written model (validated by correspondence, ~2,000 cases per quick run); harness. "
                "bcrypt and yaml.v3 are exercised, not modelled. No axioms.",
        "technique": "Coq proof over executable model + differential correspondence check (vm_compute) against the real handlers",
    },
    "C16": {
        "text": "Theorems (Props/C16.v) over tables REGENERATED from hotline/access.go on every run: for ALL 2^64 bitmaps and every bit, "
                "load(save(b)) has bit i iff b has it and i is one of the 40 defined privileges (also as the equation load(save b) = mask b); "
                "the legacy array form loads the same bytes; the YAML key of every bit equals the protocol reference table (both directions); "
                "the Access* constants are the protocol numbers. Generic lemma: tables_consistent -> save/load law; the finite consistency "
                "obligation is discharged by computation on the generated tables, so a swapped/missing/wrong entry in either hand-written Go "
                "table breaks a proof obligation. Correspondence through the real YAMLAccountManager + yaml.v3: all 64 single bits in both "
                "formats, pairs of defined bits, random bitmaps, migration of legacy files, and the user-access field/Authorize at a real login.",
        "note": "Trusted: Coq kernel; translator (go/ast, ~300 lines; unknown shapes become bit 999 and fail the obligation); yaml.v3 behaviour "
                "(struct fields marshalled in order, bool decoding) observed not verified; reference table transcribed by hand from the protocol PDF. No axioms.",
        "technique": "Coq proof over translator-generated tables + differential correspondence through the real YAML account manager",
    },
}
