#!/bin/bash
# run_seeded.sh [seed-id ...]: for each seeded change: apply to /repo, run the property's quick check, expect a
# VIOLATION, undo.  Prints one line per seed; a run over ALL seeds (no arguments) rewrites seeded/RESULTS.md.
cd /verif
ids="$@"; all=0; [ -z "$ids" ] && { ids=$(ls seeded | grep -v RESULTS); all=1; }
tmp=$(mktemp /verif/run/seeded.XXXXXX)
for id in $ids; do
  d=/verif/seeded/$id
  [ -f $d/patch.diff ] || continue
  prop=$(python3 -c "import json;print(json.load(open('$d/meta.json'))['property'])")
  if ! git -C /repo apply --check $d/patch.diff 2>/dev/null; then echo "$id $prop PATCH-DOES-NOT-APPLY"; continue; fi
  git -C /repo apply $d/patch.diff
  out=$(./check.sh $prop quick 2>&1); rc=$?
  git -C /repo checkout -- .
  v=$(echo "$out" | grep -c '^VIOLATION')
  nf=$(echo "$out" | grep -c 'no-failing-input-found')
  res=MISSED; [ $rc -ne 0 ] && [ $v -gt 0 ] && res=DETECTED
  echo "$id $prop $res violations=$v no-failing-input-found=$nf"
done | tee $tmp
if [ $all -eq 1 ]; then
python3 - $tmp <<'PY'
import sys,json
rows=[l.split() for l in open(sys.argv[1]) if len(l.split())>=3]
out=["# Seeded changes: last full run of tools/run_seeded.sh (each applied to /repo, quick check, reverted)","",
     "| seed | property | origin | result | concrete failing input |","|---|---|---|---|---|"]
det=0
for p in rows:
    origin='independent sub-agent' if 'agent' in p[0] else 'reverse of a repair'
    if p[2]=='DETECTED': det+=1
    v=int(p[3].split('=')[1]) if len(p)>3 else 0; nf=int(p[4].split('=')[1]) if len(p)>4 else 0
    out.append("| %s | %s | %s | %s | %s |"%(p[0],p[1],origin,p[2],'no (broken obligation / correspondence only)' if nf>=v and v>0 else ('yes' if v>0 else '-')))
out+=["","%d seeds, %d detected."%(len(rows),det)]
open('/verif/seeded/RESULTS.md','w').write("\n".join(out)+"\n")
print(out[-1])
PY
fi
rm -f $tmp
