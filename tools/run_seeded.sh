#!/bin/bash
# run_seeded.sh [seed-id ...]: for each seeded change: apply to /repo, run the property's quick check, expect a
# VIOLATION, undo.  Prints one line per seed and writes seeded/RESULTS.md.
cd /verif
ids="$@"; [ -z "$ids" ] && ids=$(ls seeded | grep -v RESULTS)
for id in $ids; do
  d=/verif/seeded/$id
  [ -f $d/patch.diff ] || continue
  prop=$(python3 -c "import json;print(json.load(open('$d/meta.json'))['property'])")
  if ! git -C /repo apply --check $d/patch.diff 2>/dev/null; then echo "$id $prop PATCH-DOES-NOT-APPLY"; continue; fi
  git -C /repo apply $d/patch.diff
  out=$(./check.sh $prop quick 2>&1); rc=$?
  git -C /repo checkout -- .
  v=$(echo "$out" | grep -c '^VIOLATION')
  nf=$(echo "$out" | grep -c 'no-failing-input-found')
  res=MISSED; [ $rc -ne 0 ] && [ $v -gt 0 ] && res=DETECTED
  echo "$id $prop $res violations=$v no-failing-input-found=$nf"
done | tee /tmp/seeded_results.txt
