#!/bin/bash
# coqchk_all.sh: independent re-check of every compiled property file (and all they depend on) with coqchk, printing
# the axioms the checked files rely on.  Takes minutes; run after a full `make` in /verif/coq.
cd /verif/coq || exit 2
mods=$(ls Props/C*.v | sed 's#Props/\(C[0-9]*\)\.v#Verif.Props.\1#')
( time timeout 7200 coqchk -silent -o -Q . Verif $mods ) > /verif/evidence/coqchk.txt 2>&1
rc=$?
tail -25 /verif/evidence/coqchk.txt
exit $rc
