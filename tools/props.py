"""Per-property registry for tools/check.py."""

HARNESS_TIMEOUT = {"quick": 600, "thorough": 3600}

TRUSTED_BASE = [
    "Coq 8.16.1 kernel (coqc, full .vo build); vm_compute used for finite-domain lemmas, refutation witnesses and the correspondence evaluation; native_compute not used",
    "no Axiom/Parameter/Conjecture/Admitted in /verif/coq (static scan on every run); no guard/positivity/universe switches",
    "correspondence check: Go harness (/verif/harness, built into /repo's module by go build -overlay with -tags verif) + case printer + Base.Bytes.unhex + Corr/Run_<id>.v model/oracle functions; strength bounded by the generators (distribution recorded in this file)",
    "hook shims hotline/verif_export.go (build tag verif): pure forwarding to unexported functions",
]

REG = {
    "C03": {
        "assumptions": [
            "PARTIAL: the theorems cover (1) the resource brackets of a connection (registry entry, connected counter, claimed transfer entry, in-progress counters are released whatever the peer sends and however the handler ends - return, error, recovered panic) and (2) structural obligations over facts regenerated from the sources (recovery installed first, every acquisition directly followed by its deferred release, shared maps only touched under a mutex, the set of go statements)",
            "Go semantics assumed: deferred calls run in reverse order on return and on panic; recover() in the first deferred call stops a panic of the handler's own goroutine; a concurrent map write and a panic in a goroutine without recovery abort the process",
            "NOT modelled (searched by the hostile runs only): scheduler fairness and timeliness of the sentinel's replies, memory exhaustion, blocked writers, kernel limits, the 1-3 s sleeps",
            "hostile logged-in peers are ordinary users (what an administrator account may do to others is C05/C17's subject)",
        ],
        "trusted_base": ["translator: Gen/Structure.v (statement order of the two connection handlers, map index expressions with lock depth, go statements)", "the hostile generators and the sentinel in harness/c03.go", "modelled, not verified: Go's defer/recover/runtime fault semantics"],
    },
    "C04": {
        "assumptions": [
            "the connection is the byte string the peer sends before it closes; chunking is irrelevant (C02)",
            "bcrypt is abstracted to agreement of its 72 bytes of key material (password . NUL, repeated): verify (hash p) q <-> key72 p = key72 q; for NUL-free passwords of at most 72 bytes this is p = q (theorem C04_only_the_current_password); the correspondence includes NUL variants that collide under the real bcrypt",
            "the first transaction must fit the connection scanner's 64 KiB token limit (bufio.MaxScanTokenSize); a longer one is never handed over and the connection stays silent",
            "a login that succeeds and is removed from the account table between Authenticate and Get (race) is not modelled",
            "banned addresses: the verdict is an input here (Admit in the correspondence); the ban list itself is C17's",
        ],
        "trusted_base": ["std++ gmap", "modelled, not verified: bcrypt (golang.org/x/crypto), net.Pipe as the connection, bufio.Scanner buffer management (C02's model)"],
    },
    "C17": {
        "assumptions": [
            "instants are nanoseconds; time.Now() is an input of the model (the harness records it around each request; bans are placed with margins of seconds so the comparison is never at the boundary - the boundary itself is covered by the theorems only)",
            "an address is the text before the first ':' of the peer address (IPv4, as the property quantifies)",
            "a later ban request for the same address replaces the earlier one (BanFile.Add overwrites the entry): 'refused iff the LATEST request for the address is permanent, or temporary and unexpired'; C17_ban_term_respected and C17_permanent_ban_stands give the conditions under which an earlier ban's term is still honoured",
            "restart = a fresh BanFile loaded from the same path (live connections are kept in the harness); yaml.v3 round-trips the map (observed)",
            "the disconnect happens one second after the request (goroutine with time.Sleep): the harness waits for it; the model treats request and disconnect as one step",
        ],
        "trusted_base": ["std++ gmap", "modelled, not verified: yaml.v3 (ban file), time.Now/time.Sleep, os.WriteFile"],
    },
    "C20": {
        "assumptions": [
            "'killed' = SIGKILL of the process at a system-call boundary: the directory is as the calls made so far left it (page cache survives); a single write(2) is all-or-nothing; power loss / fsync ordering is outside the statement and the model",
            "the YAML decoder is a parameter of the account-directory theorem (key_of: the login inside a complete record, None for anything else); the loaders themselves are run for real on every materialised crash state",
            "the system calls of each update are taken from strace of the real managers on every run (child process of the harness) and compared call by call with the model's scripts; calls outside the configuration directory are ignored; file contents written are inputs of the model (read back from the directory)",
            "static side of the tie (Gen/Persist.v): a call inside a loop, an else branch or a closure is refused by the derivation; the account file is renamed exactly when the login changes, and the two paths are assumed to differ exactly then (filepath.Join of distinct clean logins)",
            "recovery is more than loading: on every materialised crash state the real managers make one more update of every kind, rewrite and delete every account and are reloaded (harness c20Continue); a failure there is reported as a state that is neither old nor new",
            "recover1 models the loader's step for ONE file (the old file of the interrupted update); the theorem assumes a well-named directory before the update and that the new login's file name is free",
            "updates are made through the managers' own methods (FlatNews.Write, ThreadedNewsYAML.CreateGrouping/PostArticle/DeleteArticle, BanFile.Add, YAMLAccountManager.Create/Update/Delete), one at a time",
        ],
        "trusted_base": ["std++ gmap", "translator: Gen/Persist.v (every file-system-changing call of internal/mobius by function; FS/PersistSpec.v derives the scripts from it, theorem C20_sources_issue_the_modelled_scripts)", "strace 6.1 (-f -y -xx) and the trace parser / directory replayer in harness/c20.go (cross-checked on every run: the replayed directory must load to the same state as the directory the child left)", "modelled, not verified: kernel file-system semantics of open/write/rename/link/unlink"],
    },
    "C19": {
        "assumptions": [
            "the critical sections are those of the code as repaired: HandleGetMsgs (Seek + ReadAll) and HandleTranOldPostNews (Write) under messageBoardMu, the agreement's Seek + ReadAll at login under Server.agreementMu; that every use of the two stores is inside such a section is re-established from the sources on every run (Gen/Locks.v, theorem C19_cursor_use_is_serialised)",
            "which interleavings the Go scheduler produces is not modelled: the theorems quantify over every order the lock can admit; the concurrent batches of the correspondence are a search over real schedules, not the proof",
            "io.ReadAll is modelled as: read chunks of any positive capacity until the empty chunk",
            "texts stay below the 64 KiB field limit (65,535 bytes); the date in a post is the harness's reading of the clock in the server's format (minute resolution)",
        ],
        "trusted_base": ["translator: Gen/Locks.v (linear Lock/Unlock scan per function)", "modelled, not verified: sync.Mutex, goroutine scheduling, io.ReadAll's buffer growth"],
    },
    "C10": {
        "assumptions": [
            "trees of folders and plain files with ASCII names, no aliases, no stored resource/info forks (PreserveResourceForks off); the requested folder's own name does not start with a dot",
            "filepath.Walk visits entries in byte order of their names, a folder before its content",
            "the flattened-file payload of a file without forks is 130 bytes + the name (24 header, 16 INFO fork header, 74 info fork, 16 DATA fork header); dates inside it are not compared",
            "the client behaves like the reference client of the harness: it answers every header, sends 00 03 after every file, streams parent folders before their content",
            "item counts stay below 65,536 (uint16)",
        ],
        "trusted_base": ["std++ gmap", "reference folder-transfer client in harness/c10.go", "modelled, not verified: filepath.Walk, net.Pipe, os file operations"],
    },
    "C11": {
        "assumptions": [
            "names are wire (Mac Roman) byte strings; the disk holds their UTF-8 decodings; the listing encoder and ReadPath's decoder are inverse on every name (theorem over Base/MacRoman.v's table; the table itself is tied to the library by C07's and this correspondence)",
            "the default ignore patterns (^\\. and ^@); file contents are small (the size arithmetic is modulo 2^32 as coded)",
            "info forks are compared by (type, creator, comment); dates (file mtime) are not modelled",
            "aliases are symbolic links with absolute targets below the file root (as MakeAlias creates them); one level of dereferencing",
            "os.Rename onto an existing name follows POSIX (file replaces file, folder replaces empty folder, other combinations fail); failures other than not-exist are ignored by the folder-rename branch, as coded",
        ],
        "trusted_base": ["std++ gmap", "translator: Gen/FileTypes.v (extension table of hotline/file_types.go)", "modelled, not verified: os.ReadDir order (byte order of names), os.Rename/Symlink/RemoveAll, golang.org/x/text charmap.Macintosh"],
    },
    "C05": {
        "assumptions": [
            "the governing privilege per request class is fixed by the reference table coq/Auth/GuardSpec.v (from the protocol document's Access lines and the property text; spec/privileges.md)",
            "the decision model is 'all governing bits held'; handler bodies are not modelled in Coq: the tie between each handler and its decision is the translator (which Access constants each handler tests) plus the bit-sweep correspondence on the real handlers",
            "effects of PERMITTED requests are the subject of the other properties; here a refusal is checked to be pure (one error reply, nothing queued, no file/account/news/ban change)",
            "batched account edits (Auth/Batch.v): an UpdateUser transaction's sub-records are judged and applied in order, each against the account table left by the earlier ones; deleting a login that does not exist ends the batch without a reply; a refused batch keeps the earlier edits (each held its own privilege); tied to HandleUpdateUser by op 4 of the correspondence on the real YAMLAccountManager",
            "upload-folder / drop-box rules: the special folders are recognised by name ('upload', 'drop box', ASCII case-insensitive) on the last component of the directory the path field resolves to (Lib/Path.v sub_of = ReadPath's join); path probes observe the effect itself (drop-box content in the reply, destination of a granted upload)",
        ],
        "trusted_base": ["translator: Gen/Handlers.v (handler_guards, registered)", "reference tables Auth/GuardSpec.v transcribed by hand", "Lib/Path.v model of filepath.Join/Clean (tied to the code by C07's correspondence)"],
    },
    "C06": {
        "assumptions": [
            "the account map/ban list effects are observed through the real YAMLAccountManager and BanFile on a sandbox directory",
            "bitmaps are 8 bytes; IsSet is only used with 0 <= i < 64 (as in the code)",
        ],
        "trusted_base": ["modelled, not verified: bcrypt (not involved in the decision), yaml.v3 account file round-trip (observed through the code's own loader)"],
    },
    "C01": {
        "assumptions": [
            "objects are fresh (readOffset 0) when drained; Transaction.Read re-encodes fields from fresh copies",
            "Go slices handed to decoders have cap == len (as the server's token copies do)",
            "FilePath.Write is modelled for path data below 3.5 KB (bufio.Scanner's 4 KiB initial buffer; larger inputs change which malformed slices panic)",
        ],
        "trusted_base": ["translator: Gen/ReaderShapes.v (shape of every Read method of package hotline) regenerated on every run",
                         "reference layouts coq/Wire/Types.v transcribed from docs/HLProtocol.pages.pdf (spec/wire-layouts.md)",
                         "modelled, not verified: io.ReadAll / io.Copy (as draining scripts), bufio.Scanner token limit, binary.Read, bcrypt inside Account.Read (abstracted to the has-password flag)"],
    },
    "C02": {
        "assumptions": [
            "a Read on the connection returns a non-empty piece of the remaining bytes, of any size (TCP may split or coalesce); urgent data, deadlines and half-close timing are not modelled (not used by mobius)",
            "bufio.Scanner is abstracted to: pending bytes, 64 KiB buffer limit, split function called on the pending bytes; validated against the real bufio.Scanner + transactionScanner on every run (op 3 cases)",
            "io.ReadFull / binary.Read / io.CopyN are modelled as read_full / copy_n over the chunk list",
            "folder uploads: the stream model covers uploads into a fresh target (every file item is answered with 'send file'; skip and resume replies, which change what the client sends next, are C10's subject) whose streams are complete; the client side is written ahead of the server's replies, which do not depend on the segmentation",
        ],
        "trusted_base": ["modelled, not verified: bufio.Scanner, io.ReadFull, io.CopyN, net.Pipe as the in-memory connection whose reads return exactly the scripted pieces"],
    },
    "C07": {
        "assumptions": [
            "the configured file root and accounts directory are absolute, clean, ASCII paths and no symbolic link below them leads out (links are created only by the make-alias request, whose target is itself inside the root)",
            "lexical containment: the theorems are about path strings handed to the file system; the OS rejects components with NUL or longer than NAME_MAX (observed, not modelled)",
            "filepath.Join / Clean are modelled on '/'-separated components (validated against path/filepath on hostile strings every run); the Mac Roman table is compared with x/text every run",
        ],
        "trusted_base": ["modelled, not verified: path/filepath, charmap.Macintosh, the kernel's path resolution"],
    },
    "C08": {
        "corr_modules": ["Corr.Run_C09"],
        "assumptions": [
            "the header fields the property does not constrain (type/creator signatures, dates of a file without a stored info fork) are inputs of the model, read from the header itself",
            "reading the file (os.Open, bufio.Discard, io.Copy) is modelled as returning the file's bytes; the file does not change during the transfer",
            "after a non-resumed, non-preview download of a file without resource fork the code appends an empty MACR fork header (16 bytes) beyond the announced transfer size; the statement is read as not forbidding it (DESIGN.md C08)",
        ],
        "trusted_base": ["modelled, not verified: os file reads, io.Copy, bufio"],
    },
    "C09": {
        "assumptions": [
            "the client is the honest resuming client of the statement: it asks for the resume offset whenever a partial file may exist and sends exactly the remaining bytes (a client that re-uploads from byte 0 onto an existing partial file gets prefix ++ data: outside the quantifier, noted in DESIGN.md)",
            "default configuration (PreserveResourceForks off): fork side files are not written",
            "append-mode writes and rename are atomic at the granularity observed after the handler returns; crash points inside an upload are C20-like and not part of C09",
            "one upload of a name at a time (two simultaneous uploads of one name interleave appends: a schedule, outside the quantifier)",
        ],
        "trusted_base": ["modelled, not verified: os.OpenFile(O_APPEND), io.CopyN, os.Rename"],
    },
    "C12": {
        "assumptions": [
            "queue-level audiences are proved on the model; delivery adds sendTransaction's lookup by user ID: chat membership is NOT purged when a member disconnects, so 'nobody else' additionally needs that the departed member's ID is not handed to a new connection while the stale membership exists (known finding: stale-member-after-id-reuse, needs 65,536 further connections)",
            "fmt's %13.13s is modelled on Go's rune segmentation (invalid bytes are one rune wide); validated against fmt on every run with names containing multi-byte and invalid sequences",
            "in-order delivery (sequential outbox in the harness, real sendTransaction)",
        ],
        "trusted_base": ["std++ gmap", "modelled, not verified: fmt.Sprintf, utf8 decoding, crypto/rand chat IDs (inputs of the model)"],
    },
    "C13": {
        "assumptions": [
            "notifications are applied by the client in the order the server queued them (the statement quantifies histories, not schedules); the harness delivers the outbox sequentially through the real sendTransaction and uses a keep-alive round trip as barrier",
            "'once traffic settles' = no connection is between its login and its first announcement (Agreed / SetClientUserInfo); the fetched user list also shows such connections (observation, DESIGN.md section 8 #23)",
            "fewer than 65,536 users are connected at once (some ID is free)",
            "accounts used by the harness hold AnyName, so supplied names are adopted (the any-name rule is C05's)",
        ],
        "trusted_base": ["std++ 1.8.0 gmap (axiom-free)", "modelled, not verified: net.Pipe delivery, math/big bit operations behind UserFlags.Set"],
    },
    "C14": {
        "assumptions": [
            "a single Write call on the client connection is atomic with respect to other Write calls (TCP-like connection of the property's hook note; net.Pipe in the harness serialises Writes the same way); partial-write error paths are not modelled",
            "which interleavings the Go scheduler produces is not modelled: the theorems quantify over all of them; the load run is a search, not the proof",
            "'at most one reply per request' is a path-insensitive bound computed by the translator over every handler's AST (loops count as unbounded)",
        ],
        "trusted_base": ["translator: Gen/Handlers.v (registration table, per-handler reply bound)", "modelled, not verified: goroutine scheduling, kernel buffering, net.Conn.Write atomicity"],
    },
    "C15": {
        "assumptions": [
            "logins are legal file names (non-empty, no '/', no NUL): the account file name is then an injective function of the login",
            "passwords are at most 72 bytes (bcrypt's limit; longer ones are modelled as an unusable hash, as the code stores \"\")",
            "bcrypt is abstracted to: verify (hash p) q <-> p = q; salts and collisions are not modelled",
            "yaml.v3 round-trips the account fields (exercised through the real manager, incl. non-UTF-8 logins)",
        ],
        "trusted_base": ["std++ gmap", "modelled, not verified: bcrypt, yaml.v3, os file operations (create-exclusive, rename, remove) on one directory"],
    },
    "C18": {
        "assumptions": [
            "article IDs stay below 2^32 - 1 (reachable only after 2^32 posts); the uint32 wrap is written into the model",
            "the nested name->node maps of the Go code are represented by one path-keyed map (children of p = keys p ++ [name]); equivalence is validated by the per-step dump correspondence",
            "category/bundle names in generated histories are UTF-8 (yaml map keys); titles, poster names and bodies are arbitrary bytes; dates are stamped by the server and fed to the model as inputs",
            "posting to a missing category or replying to a missing parent panics in the code (recovered by the connection loop); the model returns Panicked with the in-memory side effect on the previous article's NextArt",
        ],
        "trusted_base": ["std++ gmap", "modelled, not verified: yaml.v3 round trip of the news tree, os.WriteFile + os.Rename"],
    },
    "C16": {
        "assumptions": [
            "YAML documents are modelled as key->bool association lists; yaml.v3 itself (struct marshalling in field order, mapping/sequence decoding) is exercised through the real account manager on every run, not verified",
            "the translator (translator/main.go) extracts load_table / save_fields / save_tags from hotline/access.go; entries of unexpected shape are emitted as bit 999 and break gen_tables_consistent",
        ],
        "trusted_base": ["translator /verif/translator (go/ast): Gen/AccessTables.v is regenerated from /repo on every run",
                         "reference table coq/Auth/PrivSpec.v transcribed from docs/HLProtocol.pages.pdf (spec/privileges.md)"],
    },
}


def get(prop):
    return REG.get(prop, {})


def signature(prop, case):
    """Map a failing case to a signature used by known_findings.json (fixed rule per property)."""
    kind = case.get("kind", "")
    ops = [o.get("name") or str(o.get("code")) for o in case.get("ops", [])]
    return "kind=%s;op=%s" % (kind, ops[0] if len(ops) == 1 else "history")
