#!/usr/bin/env python3
"""Driver for one property check:  check.py <Cxx> <quick|thorough> [--replay file]

Pipeline (DESIGN.md section 2.2): translate -> prove -> build harness from /repo's working tree ->
run the real code on generated cases -> evaluate the Coq model on the same cases -> decide -> evidence.
"""
import fcntl
import glob
import hashlib
import json
import os
import re
import shutil
import subprocess
import sys
import time
from concurrent.futures import ThreadPoolExecutor

VERIF = os.path.dirname(os.path.dirname(os.path.abspath(__file__)))
REPO = os.environ.get("VERIF_REPO", "/repo")
COQ = os.path.join(VERIF, "coq")
RUN = os.path.join(VERIF, "run")
GOENV = dict(os.environ, GOFLAGS="-mod=mod", GOPROXY="off", GOSUMDB="off", GOTOOLCHAIN="local",
             CGO_ENABLED="0")

sys.path.insert(0, os.path.join(VERIF, "tools"))
import props as PROPS  # noqa: E402  per-property registry

ALLOWED_AXIOMS = set()   # no axioms are used; stdlib axioms would be listed here by name


def sh(cmd, cwd=None, env=None, timeout=None, check=False):
    p = subprocess.run(cmd, cwd=cwd, env=env, shell=isinstance(cmd, str), stdout=subprocess.PIPE,
                       stderr=subprocess.STDOUT, timeout=timeout, text=True, errors="replace")
    if check and p.returncode != 0:
        raise RuntimeError("command failed: %s\n%s" % (cmd, p.stdout[-4000:]))
    return p.returncode, p.stdout


class Lock:
    def __init__(self, name):
        os.makedirs(RUN, exist_ok=True)
        self.path = os.path.join(RUN, name)

    def __enter__(self):
        self.f = open(self.path, "w")
        fcntl.flock(self.f, fcntl.LOCK_EX)

    def __exit__(self, *a):
        fcntl.flock(self.f, fcntl.LOCK_UN)
        self.f.close()


# ------------------------------------------------------------------------------------------------
def translate():
    """Regenerate coq/Gen/*.v from /repo's working tree (write-if-changed)."""
    tdir = os.path.join(VERIF, "translator")
    if not os.path.exists(os.path.join(tdir, "main.go")):
        return 0, "no translator"
    binp = os.path.join(RUN, "bin", "translator")
    os.makedirs(os.path.dirname(binp), exist_ok=True)
    rc, out = sh(["go", "build", "-o", binp, "."], cwd=tdir, env=dict(GOENV, GOFLAGS="-mod=mod"), timeout=300)
    if rc != 0:
        return rc, out
    return sh([binp, "-repo", REPO, "-out", os.path.join(COQ, "Gen")], timeout=120)


def coq_makefile():
    mk = os.path.join(COQ, "Makefile")
    cp = os.path.join(COQ, "_CoqProject")
    if not os.path.exists(mk) or os.path.getmtime(mk) < os.path.getmtime(cp):
        sh("coq_makefile -f _CoqProject -o Makefile", cwd=COQ, check=True)


def make_targets(targets, timeout=1500):
    coq_makefile()
    return sh(["make", "-j16"] + targets, cwd=COQ, timeout=timeout)


def theorem_names(prop):
    src = open(os.path.join(COQ, "Props", prop + ".v")).read()
    return re.findall(r"^Theorem\s+([A-Za-z0-9_']+)", src, re.M)


def statements_digest(prop):
    src = open(os.path.join(COQ, "Props", prop + ".v")).read()
    stm = re.findall(r"^Theorem\s+.*?\.\s*$\s*Proof", src, re.M | re.S)
    return hashlib.sha256("\n".join(stm).encode()).hexdigest()[:16]


def print_assumptions(prop, rundir):
    names = theorem_names(prop)
    f = os.path.join(rundir, "assume.v")
    with open(f, "w") as fh:
        fh.write("From Verif Require Import Props.%s.\n" % prop)
        for n in names:
            fh.write('Goal True. idtac "@@ %s". Abort.\nPrint Assumptions %s.\n' % (n, n))
    rc, out = sh(["coqc", "-Q", COQ, "Verif", "assume.v"], cwd=rundir, timeout=600)
    res = {}
    if rc != 0:
        return names, res, out
    cur = None
    for line in out.splitlines():
        m = re.match(r"@@ (\S+)", line)
        if m:
            cur = m.group(1)
            res[cur] = []
            continue
        if cur is None:
            continue
        if "Closed under the global context" in line:
            res[cur] = ["closed"]
        elif re.match(r"^[A-Za-z_][\w.']*\s*:", line):
            res[cur].append(line.split(":")[0].strip())
    return names, res, out


STATIC_PAT = re.compile(r"\b(Admitted|admit|Axiom|Parameter|Conjecture|Unset Guard|bypass_check|type-in-type|"
                        r"Admit Obligations|impredicative-set|native_compute)\b")


def static_scan():
    bad = []
    for f in glob.glob(os.path.join(COQ, "**", "*.v"), recursive=True):
        txt = open(f).read()
        txt = re.sub(r"\(\*.*?\*\)", "", txt, flags=re.S)
        for i, line in enumerate(txt.splitlines(), 1):
            if STATIC_PAT.search(line):
                bad.append("%s:%d: %s" % (os.path.relpath(f, VERIF), i, line.strip()))
    cp = open(os.path.join(COQ, "_CoqProject")).read()
    if "type-in-type" in cp or "impredicative" in cp:
        bad.append("_CoqProject passes a forbidden flag")
    return bad


def build_harness():
    hdir = os.path.join(VERIF, "harness")
    ov = {"Replace": {}}
    for f in sorted(os.listdir(hdir)):
        if f.endswith(".go"):
            ov["Replace"][os.path.join(REPO, "internal", "zzverif", "harness", f)] = os.path.join(hdir, f)
    os.makedirs(os.path.join(RUN, "bin"), exist_ok=True)
    ovp = os.path.join(RUN, "overlay.json")
    with open(ovp, "w") as fh:
        json.dump(ov, fh)
    binp = os.path.join(RUN, "bin", "harness")
    rc, out = sh(["go", "build", "-tags", "verif", "-overlay", ovp, "-o", binp, "./internal/zzverif/harness"],
                 cwd=REPO, env=GOENV, timeout=900)
    return rc, out, binp


def run_harness(binp, prop, seed, tier, outdir, extra_env=None):
    shutil.rmtree(outdir, ignore_errors=True)
    os.makedirs(outdir)
    env = dict(os.environ, TZ="UTC")
    if extra_env:
        env.update(extra_env)
    t0 = time.time()
    rc, out = sh([binp, "-prop", prop, "-seed", str(seed), "-tier", tier, "-out", outdir], env=env,
                 timeout=PROPS.HARNESS_TIMEOUT.get(tier, 600))
    return rc, out, time.time() - t0


def parse_list(out, name):
    m = re.search(r"\b%s\s*=\s*(\[[^\]]*\])" % name, out, re.S)
    if not m:
        return None
    body = m.group(1).strip("[]")
    body = re.sub(r"%nat|%N", "", body)
    return [int(x) for x in re.split(r"[;\s]+", body) if x.strip()]


def eval_cases(outdir):
    """coqc every shard; returns (M, S, ncases, err)."""
    shards = sorted(glob.glob(os.path.join(outdir, "cases*.v")))

    def one(f):
        return f, sh("ulimit -s unlimited 2>/dev/null; exec coqc -Q %s Verif -Q . Top %s" % (COQ, os.path.basename(f)), cwd=outdir, timeout=1500)

    M, S, n = [], [], 0
    with ThreadPoolExecutor(max_workers=16) as ex:
        for f, (rc, out) in ex.map(one, shards):
            if rc != 0:
                return None, None, 0, "coqc %s failed:\n%s" % (f, out[-3000:])
            m, s = parse_list(out, "M"), parse_list(out, "S")
            nc = re.search(r"NC\s*=\s*(\d+)", out)
            if m is None or s is None or not nc:
                return None, None, 0, "cannot parse coqc output for %s:\n%s" % (f, out[-2000:])
            M += m
            S += s
            n += int(nc.group(1))
    return sorted(M), sorted(S), n, None


def show_model(outdir, idx, corr="Corr.Case"):
    """Ask Coq what the model predicts for case idx (for the replay file)."""
    f = os.path.join(outdir, "show_%d.v" % idx)
    shard = None
    for s in sorted(glob.glob(os.path.join(outdir, "cases*.v"))):
        if re.search(r"mk_case %d \[" % idx, open(s).read()):
            shard = os.path.basename(s)[:-2]
    if shard is None:
        return None
    # the shard must be compiled as a library to be imported: it was, by eval_cases (cases*.vo)
    with open(f, "w") as fh:
        fh.write("From Verif Require Import Base.Bytes Corr.Case %s.\nFrom Top Require Import %s.\nFrom Coq Require Import String.\nOpen Scope string_scope.\n" % (corr, shard))
        fh.write("Definition R := Eval vm_compute in map (show_model model) (filter (fun c => Nat.eqb (c_idx c) %d) cases).\nPrint R.\n" % idx)
    rc, out = sh(["coqc", "-Q", COQ, "Verif", "-Q", ".", "Top", os.path.basename(f)], cwd=outdir, timeout=300)
    if rc != 0:
        return None
    m = re.search(r"R\s*=\s*(.*?)\n\s*:", out, re.S)
    return re.sub(r"\s+", " ", m.group(1)) if m else None


def load_known():
    p = os.path.join(VERIF, "known_findings.json")
    if not os.path.exists(p):
        return {"findings": [], "fixed": []}
    return json.load(open(p))


def git_rev(path):
    rc, out = sh(["git", "-C", path, "rev-parse", "--short", "HEAD"])
    rc2, st = sh(["git", "-C", path, "status", "--porcelain"])
    return out.strip() + ("+dirty" if st.strip() else "")


# ------------------------------------------------------------------------------------------------
def main():
    if len(sys.argv) < 3:
        print(__doc__)
        return 2
    prop, tier = sys.argv[1], sys.argv[2]
    seed = int(os.environ.get("VERIF_SEED", "1") or "1")
    t0 = time.time()
    P = PROPS.get(prop)
    rundir = os.path.join(RUN, prop)
    os.makedirs(rundir, exist_ok=True)
    for old in glob.glob(os.path.join(rundir, "replay-*.json")):
        os.remove(old)
    log = open(os.path.join(rundir, "check.log"), "w")

    def L(*a):
        print("[%.1fs]" % (time.time() - t0), *a, file=log, flush=True)

    violations = []      # (replay_path, no_failing_input_found)
    known_lines = []
    broken_obligations = []
    notes = []

    def write_replay(name, obj):
        p = os.path.join(rundir, name)
        obj = dict(obj, property=prop, seed=seed, tier=tier, repo_rev=git_rev(REPO),
                   how_to_replay="cd /verif && VERIF_SEED=%d ./check.sh %s %s   (the case is regenerated from the seed; "
                                 "its inputs are in this file under 'case')" % (seed, prop, tier))
        with open(p, "w") as fh:
            json.dump(obj, fh, indent=1)
        return p

    # ---- 1-3: translate + prove ----
    with Lock(".lock-coq"):
        rc, out = translate()
        L("translate rc=%s\n%s" % (rc, out[-2000:]))
        if rc != 0:
            broken_obligations.append({"theorem": "translator", "detail": out[-1500:]})
        targets = ["Props/%s.vo" % prop] + ["%s.vo" % m.replace(".", "/") for m in P.get("corr_modules", ["Corr.Run_" + prop])]
        rc, out = make_targets(targets)
        L("make rc=%s\n%s" % (rc, out[-6000:]))
        proof_ok = rc == 0
        if not proof_ok:
            m = re.search(r'File "\./([^"]+)", line (\d+).*?\n(Error:.*?)(?:\n\n|\Z)', out, re.S)
            detail = (m.group(0) if m else out[-1500:])
            broken_obligations.append({"theorem": "build of Props/%s.v or its dependencies" % prop, "detail": detail[:3000]})
            # the model must still evaluate for the failing-input search: build the corr module alone
            rc2, out2 = make_targets(targets[1:])
            L("make corr-only rc=%s\n%s" % (rc2, out2[-3000:]))
        names, assum, aout = ([], {}, "")
        if proof_ok:
            names, assum, aout = print_assumptions(prop, rundir)
            L("assumptions: %s" % json.dumps(assum))
        bad = static_scan()
        if bad:
            broken_obligations.append({"theorem": "static scan (Admitted/Axiom/...)", "detail": "\n".join(bad[:20])})
        rc, out, binp = build_harness()
        L("harness build rc=%s\n%s" % (rc, out[-3000:]))
        if rc != 0:
            # the harness is compiled against /repo's working tree: a build failure means the code changed under
            # the hooks/harness API; the correspondence no longer checks.
            broken_obligations.append({"theorem": "harness build against /repo working tree", "detail": out[-2000:]})

    # obligations: every theorem of Props/<id>.v (kernel-accepted, closed) + the static scan of the development
    obligations = (len(names) if names else len(theorem_names(prop))) + 1
    scan_ok = not any(b.get("theorem", "").startswith("static scan") for b in broken_obligations)
    discharged = 0
    axioms_used = set()
    for n in names:
        a = assum.get(n)
        if a is None:
            broken_obligations.append({"theorem": n, "detail": "no Print Assumptions output"})
        elif a == ["closed"]:
            discharged += 1
        else:
            extra = [x for x in a if x not in ALLOWED_AXIOMS]
            axioms_used.update(a)
            if extra:
                broken_obligations.append({"theorem": n, "detail": "depends on non-allow-listed axioms: %s" % extra})
            else:
                discharged += 1

    # ---- 5-6: run the implementation, evaluate the model ----
    cases_meta = {}
    M = S = None
    ncases = 0
    harness_wall = 0
    eval_err = None
    if rc == 0:
        outdir = os.path.join(rundir, "cases")
        hrc, hout, harness_wall = run_harness(binp, prop, seed, tier, outdir)
        L("harness rc=%s wall=%.1f\n%s" % (hrc, harness_wall, hout[-3000:]))
        if hrc != 0:
            broken_obligations.append({"theorem": "harness run", "detail": hout[-2500:]})
        else:
            cases_meta = json.load(open(os.path.join(outdir, "cases.json")))
            M, S, ncases, eval_err = eval_cases(outdir)
            if eval_err:
                broken_obligations.append({"theorem": "evaluation of the model on the cases", "detail": eval_err})
            else:
                L("M=%s S=%s n=%d" % (M, S, ncases))

    known = load_known()
    by_idx = {c["idx"]: c for c in cases_meta.get("cases", [])}

    def signature(c):
        return PROPS.signature(prop, c)

    kf = [f for f in known.get("findings", []) if f["property"] == prop]
    seen_known = set()
    # ---- 7: decide ----
    if S:
        reported_sigs = set()
        for idx in S:
            c = by_idx.get(idx, {"idx": idx})
            sig = signature(c)
            match = [f for f in kf if f["signature"] == sig]
            if match:
                if sig not in seen_known:
                    seen_known.add(sig)
                    known_lines.append("KNOWN-FINDING: property=%s %s" % (prop, match[0]["what"]))
                continue
            if sig in reported_sigs:
                continue
            reported_sigs.add(sig)
            rp = write_replay("replay-%d-%d.json" % (seed, idx), {
                "kind": "input", "case": c, "signature": sig,
                "expected": "the property oracle (coq/Corr/Run_%s.v: oracle) accepts the observation" % prop,
                "observed": c.get("obs"), "model_predicts": show_model(os.path.join(rundir, "cases"), idx, P.get("corr_modules", ["Corr.Run_" + prop])[0]),
                "broken": {"oracle": "spec_failures", "detail": "observation violates the property"}})
            violations.append((rp, False))
    if M:
        # model and implementation disagree; cases that ALSO fail the oracle were reported above with their input
        onlyM = [i for i in M if not S or i not in S]
        unexplained = []
        for idx in onlyM:
            c = by_idx.get(idx, {"idx": idx})
            sig = signature(c)
            if [f for f in kf if f["signature"] == sig]:
                if sig not in seen_known:
                    seen_known.add(sig)
                    known_lines.append("KNOWN-FINDING: property=%s %s" % (prop, [f for f in kf if f["signature"] == sig][0]["what"]))
                continue
            unexplained.append(idx)
        if unexplained and not violations:
            idx = unexplained[0]
            c = by_idx.get(idx, {"idx": idx})
            rp = write_replay("replay-%d-corr-%d.json" % (seed, idx), {
                "kind": "obligation", "case": c, "signature": signature(c),
                "broken": {"correspondence": "Corr/Run_%s: case %d" % (prop, idx),
                           "detail": "model output differs from implementation output",
                           "model_predicts": show_model(os.path.join(rundir, "cases"), idx, P.get("corr_modules", ["Corr.Run_" + prop])[0]),
                           "implementation_observed": c.get("obs"),
                           "all_mismatching_cases": unexplained[:40]}})
            violations.append((rp, True))
        elif unexplained:
            notes.append("correspondence mismatches besides oracle failures: %s" % unexplained[:20])
    if broken_obligations and not violations:
        rp = write_replay("replay-%d-obligation.json" % seed, {
            "kind": "obligation", "broken": broken_obligations,
            "detail": "a proof obligation or the correspondence machinery no longer checks; the failing-input search "
                      "(oracle over %d generated cases) found no concrete failing input" % ncases})
        violations.append((rp, True))
    elif broken_obligations:
        notes.append("also broken: %s" % json.dumps(broken_obligations)[:1500])

    wall = time.time() - t0
    # ---- evidence ----
    samples = []
    for c in cases_meta.get("cases", [])[:3] + cases_meta.get("cases", [])[-2:]:
        samples.append({k: c[k] for k in ("idx", "kind", "ops", "obs") if k in c})
    tb = PROPS.TRUSTED_BASE + P.get("trusted_base", [])
    if axioms_used - {"closed"}:
        tb.append("axioms reported by Print Assumptions: %s" % sorted(axioms_used))
    else:
        tb.append("Print Assumptions: every theorem of Props/%s.v is 'Closed under the global context' (no axioms)" % prop)
    ev = {
        "property_id": prop, "tier": tier, "seed": seed, "level": "proof",
        "coverage": {
            "obligations": obligations, "discharged": (discharged if proof_ok else 0) + (1 if scan_ok else 0),
            "checker_cmd": "make -C /verif/coq Props/%s.vo (coqc 8.16.1, full .vo) + coqc run/%s/assume.v (Print Assumptions)" % (prop, prop),
            "trusted_base": tb,
            "theorems": names,
            "statements_digest": statements_digest(prop),
            "evaluations": ncases,
            "distinct_nontrivial": cases_meta.get("distinct_nontrivial", 0),
            "rule": cases_meta.get("rule", ""),
            "traces_validated_against_impl": (ncases - len(M)) if M is not None else 0,
            "correspondence_mismatches": len(M) if M is not None else None,
            "oracle_failures": len(S) if S is not None else None,
            "distribution": cases_meta.get("distribution", {}),
            "extra": cases_meta.get("extra", {}),
            "samples": samples,
            "harness_wall_s": round(harness_wall, 2),
            "repo_rev": git_rev(REPO),
            "notes": notes,
            "known_findings_reported": known_lines,
        },
        "assumptions": P.get("assumptions", []),
        "wall_s": round(wall, 2),
        "violations": len(violations),
    }
    os.makedirs(os.path.join(VERIF, "evidence"), exist_ok=True)
    with open(os.path.join(VERIF, "evidence", prop + ".json"), "w") as fh:
        json.dump(ev, fh, indent=1)

    for k in known_lines:
        print(k)
    for rp, nf in violations:
        print("VIOLATION property=%s replay=%s%s" % (prop, rp, " no-failing-input-found" if nf else ""))
    if not violations:
        print("OK property=%s tier=%s obligations=%d/%d cases=%d nontrivial=%s wall=%.1fs" % (
            prop, tier, discharged + (1 if scan_ok else 0), obligations, ncases, cases_meta.get("distinct_nontrivial"), wall))
    return 1 if violations else 0


if __name__ == "__main__":
    sys.exit(main())
