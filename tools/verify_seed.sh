#!/bin/bash
# verify_seed.sh <seed-base e.g. /tmp/seed-C06-1> <property> <seed-id>
# Confirms an agent-written breaking change (compiles, suite passes, demo fails with / passes without), stores it
# under /verif/seeded/<seed-id>/, runs the property's quick check against it in /repo, and removes the worktree.
export GOFLAGS=-mod=mod GOPROXY=off GOSUMDB=off GOTOOLCHAIN=local TZ=UTC
base=$1; prop=$2; id=$3
wt=$base/wt; out=$base/out
d=/verif/seeded/$id
mkdir -p $d
cd $wt || exit 2
demos=$(git status --porcelain | grep 'zz_seed_demo' | awk '{print $2}')
echo "demo files: $demos"
git diff -- . ':(exclude)*zz_seed_demo*' > $d/patch.diff
[ -s $d/patch.diff ] || { echo "EMPTY PATCH"; exit 3; }
mkdir -p /tmp/demo_aside.$$; for f in $demos; do mkdir -p /tmp/demo_aside.$$/$(dirname $f); mv $f /tmp/demo_aside.$$/$f; done
build=FAIL; go build ./... && build=ok
suite=FAIL; go test -vet=off -count=1 ./... >/tmp/suite.$$ 2>&1 && suite=ok
for f in $demos; do mv /tmp/demo_aside.$$/$f $f; done
pkgs=$(for f in $demos; do echo ./$(dirname $f); done | sort -u)
with=PASS; go test -vet=off -count=1 -run 'Seed|seed|Demo' $pkgs >/tmp/with.$$ 2>&1 || with=fail
git apply -R $d/patch.diff   # (not git stash: the stash is shared between worktrees and races with running agents)
without=FAIL; go test -vet=off -count=1 -run 'Seed|seed|Demo' $pkgs >/tmp/without.$$ 2>&1 && without=pass
git apply $d/patch.diff
echo "build=$build suite=$suite demo_with_change=$with demo_without_change=$without"
for f in $demos; do cp $f $d/; done
cp $out/NOTES.md $d/NOTES.md 2>/dev/null
# run my check against it
cd /repo && git apply $d/patch.diff || { echo "PATCH DOES NOT APPLY TO /repo"; exit 4; }
cd /verif && ./check.sh $prop quick > /tmp/check.$$ 2>&1; rc=$?
git -C /repo checkout -- . 
viol=$(grep -c '^VIOLATION' /tmp/check.$$)
head -3 /tmp/check.$$
cat > $d/meta.json <<J
{"id": "$id", "property": "$prop", "origin": "independent sub-agent (given only the property text and a scratch worktree)",
 "confirmed": {"build": "$build", "existing_suite": "$suite", "demo_with_change": "$with", "demo_without_change": "$without"},
 "check": {"cmd": "./check.sh $prop quick", "exit": $rc, "violation_lines": $viol},
 "needs": "see NOTES.md",
 "ran": "go build ./... ; go test -vet=off -count=1 ./... (demo moved aside) ; go test -run Seed|Demo with and without the source change ; git -C /repo apply patch.diff ; ./check.sh $prop quick ; git -C /repo checkout -- ."}
J
rm -rf /tmp/demo_aside.$$ /tmp/suite.$$ /tmp/with.$$ /tmp/without.$$ /tmp/check.$$
git -C /repo worktree remove --force $wt && rm -rf $base
echo "stored $d (check exit=$rc violations=$viol)"
