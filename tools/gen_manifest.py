#!/usr/bin/env python3
"""Writes MANIFEST.json from tools/manifest_data.py (kept valid at all times)."""
import json, os, sys
sys.path.insert(0, os.path.dirname(os.path.abspath(__file__)))
import manifest_data as D

ALL = ["C%02d" % i for i in range(1, 21)]
checks = []
for pid in ALL:
    if pid not in D.CHECKS:
        continue
    c = D.CHECKS[pid]
    checks.append({
        "property_id": pid,
        "quick_cmd": "./check.sh %s quick" % pid,
        "thorough_cmd": "./check.sh %s thorough" % pid,
        "evidence_file": "evidence/%s.json" % pid,
        "replay_cmd_template": "cat {path}   # self-contained: inputs, observed vs expected; re-run: VERIF_SEED=<seed in file> ./check.sh %s quick" % pid,
        "engine": "coq-proof+correspondence",
        "level_claimed": {"category": "proof", "text": c["text"], "design_ref": c.get("design_ref", "DESIGN.md section 5, " + pid)},
        "level_note": c["note"],
        "technique": c["technique"],
    })
na = [{"property_id": p, "reason": D.NOT_YET.get(p, "check not built yet in this round (work in progress; see DESIGN.md section 9 for the build order)")}
      for p in ALL if p not in D.CHECKS]
m = {
    "version": 1,
    "setup_cmd": "sh tools/setup.sh",
    "hooks": {
        "guard": "verif",
        "enable": "go build -tags verif (the harness is compiled into /repo's module with go build -overlay; see tools/check.py build_harness)",
        "baseline_off_cmd": "cd /repo && GOFLAGS=-mod=mod GOPROXY=off GOSUMDB=off GOTOOLCHAIN=local go test -json -vet=off -count=1 -timeout 25m ./...",
        "source_commits": D.HOOK_COMMITS,
        "add_only": True,
    },
    "engines": [
        {"name": "coq-proof+correspondence", "path": "coq/ + harness/ + translator/ + tools/check.py",
         "serves_properties": sorted(D.CHECKS.keys()),
         "kind_free_text": "Rocq/Coq 8.16.1 theorems over an executable Gallina model; tie to the code by (a) a Go translator regenerating coq/Gen/*.v from /repo on every run and (b) a differential correspondence check running the real code (Go harness built from /repo's working tree) and the model (vm_compute) on the same generated cases"}
    ],
    "checks": checks,
    "notes": D.NOTES,
    "not_applicable": na,
}
json.dump(m, open(os.path.join(os.path.dirname(os.path.dirname(os.path.abspath(__file__))), "MANIFEST.json"), "w"), indent=1)
print("MANIFEST.json: %d checks, %d not claimed" % (len(checks), len(na)))
