package main

import (
	"bytes"
	"go/ast"
	"go/printer"
	"strings"
)

func exprString(e ast.Node) string {
	var b bytes.Buffer
	printer.Fprint(&b, fset, e)
	return strings.Join(strings.Fields(b.String()), " ")
}

func stmtString(s ast.Node) string { return exprString(s) }
