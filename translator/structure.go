package main

// Gen/Structure.v: structural facts C03's containment argument rests on, taken from the non-test sources:
//   conn_stmts      the top-level statements of the two connection handlers, in order, as normalised text
//                   ("defer <call>", "go <call>", "if-return", "switch", or the statement text)
//   map_uses        every index expression on a map-typed field of Server, with the function and whether a
//                   mutex is held at that point
//   go_stmts        every go statement (function it occurs in, what is started)

import (
	"bytes"
	"fmt"
	"go/ast"
	"os"
	"path/filepath"
	"sort"
	"strings"
)

func init() { extraGenerators = append(extraGenerators, genStructure) }

func summarizeStmt(s ast.Stmt) string {
	switch v := s.(type) {
	case *ast.DeferStmt:
		return "defer " + exprString(v.Call)
	case *ast.GoStmt:
		return "go " + exprString(v.Call.Fun)
	case *ast.IfStmt:
		// an if whose body only returns
		if len(v.Body.List) > 0 {
			if _, ok := v.Body.List[len(v.Body.List)-1].(*ast.ReturnStmt); ok && v.Else == nil {
				return "if-return " + exprString(v.Cond)
			}
		}
		return "if " + exprString(v.Cond)
	case *ast.SwitchStmt:
		return "switch " + exprString(v.Tag)
	case *ast.ForStmt, *ast.RangeStmt:
		return "loop"
	default:
		return exprString(s)
	}
}

func genStructure(repo, out string) {
	type stmtRow struct{ fn, text, where string }
	var rows []stmtRow
	type mapUse struct {
		fn, field, where string
		held             bool
	}
	var muses []mapUse
	type goRow struct{ fn, what, where string }
	var gos []goRow
	mapFields := map[string]bool{}
	// map-typed fields of Server
	sf := parseFile(filepath.Join(repo, "hotline", "server.go"))
	ast.Inspect(sf, func(n ast.Node) bool {
		ts, ok := n.(*ast.TypeSpec)
		if !ok || ts.Name.Name != "Server" {
			return true
		}
		if st, ok := ts.Type.(*ast.StructType); ok {
			for _, f := range st.Fields.List {
				if _, isMap := f.Type.(*ast.MapType); isMap {
					for _, n := range f.Names {
						mapFields[n.Name] = true
					}
				}
			}
		}
		return false
	})
	for _, dir := range []string{"hotline", filepath.Join("internal", "mobius")} {
		ents, _ := os.ReadDir(filepath.Join(repo, dir))
		for _, e := range ents {
			n := e.Name()
			if !strings.HasSuffix(n, ".go") || strings.HasSuffix(n, "_test.go") || n == "verif_export.go" {
				continue
			}
			f := parseFile(filepath.Join(repo, dir, n))
			for _, d := range f.Decls {
				fd, ok := d.(*ast.FuncDecl)
				if !ok || fd.Body == nil {
					continue
				}
				if fd.Name.Name == "handleNewConnection" || fd.Name.Name == "handleFileTransfer" {
					for _, s := range fd.Body.List {
						rows = append(rows, stmtRow{fd.Name.Name, summarizeStmt(s), pos(s)})
						// the cases of the transfer-type switch: their statements matter too
						if sw, ok := s.(*ast.SwitchStmt); ok {
							for _, c := range sw.Body.List {
								cc := c.(*ast.CaseClause)
								label := "default"
								if len(cc.List) > 0 {
									label = exprString(cc.List[0])
								}
								for _, cs := range cc.Body {
									rows = append(rows, stmtRow{fd.Name.Name + "/" + label, summarizeStmt(cs), pos(cs)})
								}
							}
						}
					}
				}
				held := 0
				ast.Inspect(fd.Body, func(x ast.Node) bool {
					switch v := x.(type) {
					case *ast.DeferStmt:
						if s := exprString(v.Call.Fun); strings.HasSuffix(s, ".Unlock") || strings.HasSuffix(s, ".RUnlock") {
							return false
						}
					case *ast.GoStmt:
						gos = append(gos, goRow{fd.Name.Name, exprString(v.Call.Fun), pos(v)})
					case *ast.CallExpr:
						s := exprString(v.Fun)
						if strings.HasSuffix(s, ".Lock") || strings.HasSuffix(s, ".RLock") {
							held++
						} else if (strings.HasSuffix(s, ".Unlock") || strings.HasSuffix(s, ".RUnlock")) && held > 0 {
							held--
						}
					case *ast.IndexExpr:
						if se, ok := v.X.(*ast.SelectorExpr); ok && mapFields[se.Sel.Name] {
							muses = append(muses, mapUse{fd.Name.Name, se.Sel.Name, pos(v), held > 0})
						}
					}
					return true
				})
			}
		}
	}
	// lock sites: every X.Lock() / X.RLock() statement and whether the NEXT statement of its block is the
	// matching deferred unlock
	type lockRow struct {
		fn, mutex, where string
		deferred         bool
	}
	var locks []lockRow
	for _, dir := range []string{"hotline", filepath.Join("internal", "mobius")} {
		ents, _ := os.ReadDir(filepath.Join(repo, dir))
		for _, e := range ents {
			n := e.Name()
			if !strings.HasSuffix(n, ".go") || strings.HasSuffix(n, "_test.go") || n == "verif_export.go" {
				continue
			}
			f := parseFile(filepath.Join(repo, dir, n))
			for _, d := range f.Decls {
				fd, ok := d.(*ast.FuncDecl)
				if !ok || fd.Body == nil {
					continue
				}
				ast.Inspect(fd.Body, func(x ast.Node) bool {
					blk, ok := x.(*ast.BlockStmt)
					if !ok {
						return true
					}
					for i, st := range blk.List {
						es, ok := st.(*ast.ExprStmt)
						if !ok {
							continue
						}
						call, ok := es.X.(*ast.CallExpr)
						if !ok {
							continue
						}
						fs := exprString(call.Fun)
						var mu, un string
						switch {
						case strings.HasSuffix(fs, ".RLock"):
							mu, un = strings.TrimSuffix(fs, ".RLock"), ".RUnlock"
						case strings.HasSuffix(fs, ".Lock"):
							mu, un = strings.TrimSuffix(fs, ".Lock"), ".Unlock"
						default:
							continue
						}
						deferred := false
						if i+1 < len(blk.List) {
							if ds, ok := blk.List[i+1].(*ast.DeferStmt); ok && exprString(ds.Call.Fun) == mu+un {
								deferred = true
							}
						}
						recv := ""
						if fd.Recv != nil && len(fd.Recv.List) > 0 {
							recv = exprString(fd.Recv.List[0].Type) + "."
						}
						locks = append(locks, lockRow{recv + fd.Name.Name, mu, pos(st), deferred})
					}
					return true
				})
			}
		}
	}
	sort.SliceStable(locks, func(i, j int) bool { return locks[i].where < locks[j].where })
	sort.SliceStable(gos, func(i, j int) bool { return gos[i].where < gos[j].where })
	var b bytes.Buffer
	b.WriteString("(* GENERATED by /verif/translator from hotline/*.go and internal/mobius/*.go — do not edit. *)\n")
	b.WriteString("From Coq Require Import List String.\nImport ListNotations.\nLocal Open Scope string_scope.\n\n")
	b.WriteString("(* top-level statements of the connection handlers (and of the transfer-type cases), in source order *)\nDefinition conn_stmts : list (string * string) := [\n")
	for i, r := range rows {
		sep := ";"
		if i == len(rows)-1 {
			sep = ""
		}
		t := r.text
		if len(t) > 160 {
			t = t[:160]
		}
		fmt.Fprintf(&b, "  (%s, %s)%s (* %s *)\n", coqStr(r.fn), coqStr(t), sep, r.where)
	}
	b.WriteString("].\n\n(* index expressions on map-typed fields of Server: (function, field, is a mutex held?) *)\nDefinition map_uses : list (string * string * bool) := [\n")
	for i, m := range muses {
		sep := ";"
		if i == len(muses)-1 {
			sep = ""
		}
		fmt.Fprintf(&b, "  (%s, %s, %v)%s (* %s *)\n", coqStr(m.fn), coqStr(m.field), m.held, sep, m.where)
	}
	b.WriteString("].\n\n(* go statements: (function, what is started) *)\nDefinition go_stmts : list (string * string) := [\n")
	for i, g := range gos {
		sep := ";"
		if i == len(gos)-1 {
			sep = ""
		}
		w := g.what
		if strings.HasPrefix(w, "func(") {
			w = "func-literal"
		}
		fmt.Fprintf(&b, "  (%s, %s)%s (* %s *)\n", coqStr(g.fn), coqStr(w), sep, g.where)
	}
	b.WriteString("].\n\n(* lock statements: (function, mutex, is the next statement the matching deferred unlock?) *)\nDefinition lock_sites : list (string * string * bool) := [\n")
	for i, l := range locks {
		sep := ";"
		if i == len(locks)-1 {
			sep = ""
		}
		fmt.Fprintf(&b, "  (%s, %s, %v)%s (* %s *)\n", coqStr(l.fn), coqStr(l.mutex), l.deferred, sep, l.where)
	}
	b.WriteString("].\n")
	writeIfChanged(filepath.Join(out, "Structure.v"), b.Bytes())
}
