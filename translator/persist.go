package main

// Gen/Persist.v: every call in internal/mobius/*.go (non-test) that changes the file system, by enclosing
// function, in source order:
//   persist_calls : list (string * list pcall)
// A call is  {| pc_fn ; pc_args ; pc_deferred ; pc_guard |}:
//   pc_fn        "os.WriteFile", "os.Rename", ..., "writeFileAtomic"
//   pc_args      the arguments as path expressions: an identifier that the function defines once as
//                <expr> + "<literal>" is replaced by  PSuffix (PVar "<expr>") "<literal>"  (the temporary-file
//                idiom); everything else is  PVar "<source text>"
//   pc_deferred  the call is the operand of a defer statement (it runs when the function returns)
//   pc_guard     the condition of the innermost if statement whose BODY contains the call ("" when there is none;
//                "<loop>" inside a for/range body, "<else>" inside an else branch, "<closure>" inside a function
//                literal - these marks stay in front of the condition of an if nested inside; the derivation
//                refuses them)
// FS/PersistSpec.v turns these into system-call scripts and Props/C20.v proves them equal to the scripts the crash
// theorems are about, for every assignment of values to the source expressions.

import (
	"bytes"
	"fmt"
	"go/ast"
	"go/token"
	"os"
	"path/filepath"
	"sort"
	"strconv"
	"strings"
)

func init() { extraGenerators = append(extraGenerators, genPersist) }

var mutatingOS = map[string]bool{
	"WriteFile": true, "Create": true, "CreateTemp": true, "OpenFile": true, "Rename": true, "Remove": true,
	"RemoveAll": true, "Link": true, "Symlink": true, "Truncate": true, "Mkdir": true, "MkdirAll": true,
	"MkdirTemp": true, "Chmod": true, "Chown": true, "Chtimes": true,
}

func mutatingCallee(call *ast.CallExpr) string {
	switch f := call.Fun.(type) {
	case *ast.SelectorExpr:
		if x, ok := f.X.(*ast.Ident); ok && (x.Name == "os" || x.Name == "ioutil") && mutatingOS[f.Sel.Name] {
			return x.Name + "." + f.Sel.Name
		}
	case *ast.Ident:
		if f.Name == "writeFileAtomic" {
			return f.Name
		}
	}
	return ""
}

// leadingMarks returns the "<loop> ", "<else> ", "<closure> " marks a guard starts with (each followed by a space).
func leadingMarks(guard string) string {
	out := ""
	for {
		found := false
		for _, m := range []string{"<loop>", "<else>", "<closure>"} {
			if strings.HasPrefix(guard, m) {
				out += m + " "
				guard = strings.TrimPrefix(strings.TrimPrefix(guard, m), " ")
				found = true
			}
		}
		if !found {
			return out
		}
	}
}

func genPersist(repo, out string) {
	dir := filepath.Join(repo, "internal", "mobius")
	ents, err := os.ReadDir(dir)
	if err != nil {
		fmt.Fprintln(os.Stderr, err)
		os.Exit(1)
	}
	type pcall struct {
		fn, guard, where string
		args             []string
		deferred         bool
	}
	type fnRow struct {
		name  string
		calls []pcall
	}
	var rows []fnRow
	var names []string
	for _, e := range ents {
		if strings.HasSuffix(e.Name(), ".go") && !strings.HasSuffix(e.Name(), "_test.go") {
			names = append(names, e.Name())
		}
	}
	sort.Strings(names)
	for _, name := range names {
		f := parseFile(filepath.Join(dir, name))
		for _, d := range f.Decls {
			fd, ok := d.(*ast.FuncDecl)
			if !ok || fd.Body == nil {
				continue
			}
			fname := fd.Name.Name
			if fd.Recv != nil && len(fd.Recv.List) == 1 {
				t := fd.Recv.List[0].Type
				if st, ok := t.(*ast.StarExpr); ok {
					t = st.X
				}
				fname = exprString(t) + "." + fname
			}
			// local definitions  x := <expr> + "<lit>"  (defined exactly once in the function)
			defs := map[string]*ast.BinaryExpr{}
			count := map[string]int{}
			ast.Inspect(fd.Body, func(n ast.Node) bool {
				as, ok := n.(*ast.AssignStmt)
				if !ok {
					return true
				}
				for i, l := range as.Lhs {
					id, ok := l.(*ast.Ident)
					if !ok {
						continue
					}
					count[id.Name]++
					if i < len(as.Rhs) && len(as.Lhs) == len(as.Rhs) {
						if be, ok := as.Rhs[i].(*ast.BinaryExpr); ok && be.Op == token.ADD {
							if bl, ok := be.Y.(*ast.BasicLit); ok && bl.Kind == token.STRING {
								defs[id.Name] = be
							}
						}
					}
				}
				return true
			})
			pathExpr := func(e ast.Expr) string {
				if id, ok := e.(*ast.Ident); ok && count[id.Name] == 1 && defs[id.Name] != nil {
					be := defs[id.Name]
					lit, _ := strconv.Unquote(be.Y.(*ast.BasicLit).Value)
					return fmt.Sprintf("PSuffix (PVar %s) %s", coqStr(exprString(be.X)), coqStr(lit))
				}
				if be, ok := e.(*ast.BinaryExpr); ok && be.Op == token.ADD {
					if bl, ok := be.Y.(*ast.BasicLit); ok && bl.Kind == token.STRING {
						lit, _ := strconv.Unquote(bl.Value)
						return fmt.Sprintf("PSuffix (PVar %s) %s", coqStr(exprString(be.X)), coqStr(lit))
					}
				}
				return "PVar " + coqStr(exprString(e))
			}
			var calls []pcall
			var walk func(n ast.Node, guard string, deferred bool)
			walkList := func(l []ast.Stmt, guard string) {
				for _, s := range l {
					walk(s, guard, false)
				}
			}
			walk = func(n ast.Node, guard string, deferred bool) {
				switch v := n.(type) {
				case nil:
					return
				case *ast.IfStmt:
					walk(v.Init, guard, false)
					walk(v.Cond, guard, false)
					// once inside a loop, an else branch or a closure the marks stay in front of the condition
					mark := leadingMarks(guard)
					walkList(v.Body.List, mark+exprString(v.Cond))
					if v.Else != nil {
						walk(v.Else, mark+"<else>", false)
					}
					return
				case *ast.ForStmt:
					walk(v.Init, guard, false)
					walkList(v.Body.List, leadingMarks(guard)+"<loop>")
					return
				case *ast.RangeStmt:
					walkList(v.Body.List, leadingMarks(guard)+"<loop>")
					return
				case *ast.BlockStmt:
					walkList(v.List, guard)
					return
				case *ast.DeferStmt:
					walk(v.Call, guard, true)
					return
				case *ast.FuncLit:
					walkList(v.Body.List, leadingMarks(guard)+"<closure>")
					return
				case *ast.CallExpr:
					if c := mutatingCallee(v); c != "" {
						var args []string
						for _, a := range v.Args {
							args = append(args, pathExpr(a))
						}
						// an `if err := f(); err != nil { return }` guard that only returns is not a guard of
						// what follows; a call in the body of such an if is (it is the error path)
						calls = append(calls, pcall{fn: c, guard: guard, where: pos(v), args: args, deferred: deferred})
					}
					for _, a := range v.Args {
						walk(a, guard, false)
					}
					walk(v.Fun, guard, false)
					return
				}
				// generic descent, keeping the guard
				ast.Inspect(n, func(m ast.Node) bool {
					if m == n || m == nil {
						return true
					}
					switch m.(type) {
					case *ast.IfStmt, *ast.ForStmt, *ast.RangeStmt, *ast.BlockStmt, *ast.DeferStmt, *ast.FuncLit, *ast.CallExpr:
						walk(m, guard, deferred)
						return false
					}
					return true
				})
			}
			walkList(fd.Body.List, "")
			if len(calls) > 0 {
				rows = append(rows, fnRow{fname, calls})
			}
		}
	}
	sort.Slice(rows, func(i, j int) bool { return rows[i].name < rows[j].name })
	var b bytes.Buffer
	b.WriteString("(* GENERATED by /verif/translator from internal/mobius/*.go — do not edit.\n")
	b.WriteString("   Every call that changes the file system, by enclosing function, in source order (see translator/persist.go). *)\n")
	b.WriteString("From Coq Require Import List String.\nFrom Verif Require Import FS.PersistSyntax.\nImport ListNotations.\nLocal Open Scope string_scope.\n\n")
	b.WriteString("Definition persist_calls : list (string * list pcall) := [\n")
	for i, r := range rows {
		fmt.Fprintf(&b, "  (%s, [\n", coqStr(r.name))
		for j, c := range r.calls {
			sep := ";"
			if j == len(r.calls)-1 {
				sep = ""
			}
			fmt.Fprintf(&b, "     mk_pcall %s [%s] %v %s%s (* %s *)\n", coqStr(c.fn), strings.Join(c.args, "; "), c.deferred, coqStr(c.guard), sep, c.where)
		}
		sep := ";"
		if i == len(rows)-1 {
			sep = ""
		}
		fmt.Fprintf(&b, "  ])%s\n", sep)
	}
	b.WriteString("].\n")
	writeIfChanged(filepath.Join(out, "Persist.v"), b.Bytes())
}
