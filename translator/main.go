// Translator: regenerates coq/Gen/*.v from /repo's working tree on every run.
// Scope: table-like syntax only (constants, YAML privilege tables, handler guards, reader shapes,
// structural facts).  An entry that is not of the expected shape is emitted as Unknown so that the
// theorems over the generated tables fail instead of being fed a guess.
package main

import (
	"bytes"
	"flag"
	"fmt"
	"go/ast"
	"go/parser"
	"go/token"
	"os"
	"path/filepath"
	"sort"
	"strconv"
	"strings"
)

var fset = token.NewFileSet()

func parseFile(path string) *ast.File {
	f, err := parser.ParseFile(fset, path, nil, parser.ParseComments)
	if err != nil {
		fmt.Fprintln(os.Stderr, "parse error:", err)
		os.Exit(1)
	}
	return f
}

func pos(n ast.Node) string {
	p := fset.Position(n.Pos())
	return fmt.Sprintf("%s:%d", filepath.Base(p.Filename), p.Line)
}

func writeIfChanged(path string, content []byte) {
	old, err := os.ReadFile(path)
	if err == nil && bytes.Equal(old, content) {
		return
	}
	if err := os.WriteFile(path, content, 0644); err != nil {
		fmt.Fprintln(os.Stderr, err)
		os.Exit(1)
	}
	fmt.Println("translator: wrote", path)
}

func coqStr(s string) string { return "\"" + strings.ReplaceAll(s, "\"", "\"\"") + "\"" }

// intConsts collects `const ( Name = <int literal> )` declarations with a given prefix.
func intConsts(f *ast.File, prefix string) (names []string, vals map[string]int, where map[string]string) {
	vals = map[string]int{}
	where = map[string]string{}
	for _, d := range f.Decls {
		gd, ok := d.(*ast.GenDecl)
		if !ok || gd.Tok != token.CONST {
			continue
		}
		for _, s := range gd.Specs {
			vs := s.(*ast.ValueSpec)
			for i, n := range vs.Names {
				if !strings.HasPrefix(n.Name, prefix) || i >= len(vs.Values) {
					continue
				}
				if bl, ok := vs.Values[i].(*ast.BasicLit); ok && bl.Kind == token.INT {
					v, err := strconv.Atoi(bl.Value)
					if err == nil {
						names = append(names, n.Name)
						vals[n.Name] = v
						where[n.Name] = pos(n)
					}
				}
			}
		}
	}
	return
}

func findMethod(f *ast.File, recv, name string) *ast.FuncDecl {
	for _, d := range f.Decls {
		fd, ok := d.(*ast.FuncDecl)
		if !ok || fd.Name.Name != name {
			continue
		}
		if recv == "" && fd.Recv == nil {
			return fd
		}
		if fd.Recv != nil && len(fd.Recv.List) == 1 {
			t := fd.Recv.List[0].Type
			if st, ok := t.(*ast.StarExpr); ok {
				t = st.X
			}
			if id, ok := t.(*ast.Ident); ok && id.Name == recv {
				return fd
			}
		}
	}
	return nil
}

// ---- access.go -----------------------------------------------------------------------------------

type loadEntry struct {
	key, cst string
	bit      int
	where    string
	unknown  string
}

// if f, ok := v["Key"].(bool); ok && f { bits.Set(AccessX) }
func loadTable(f *ast.File, vals map[string]int) (out []loadEntry, arrayForm string) {
	fd := findMethod(f, "AccessBitmap", "UnmarshalYAML")
	arrayForm = "Unknown"
	if fd == nil {
		return []loadEntry{{unknown: "UnmarshalYAML not found"}}, arrayForm
	}
	ast.Inspect(fd.Body, func(n ast.Node) bool {
		cc, ok := n.(*ast.CaseClause)
		if !ok || len(cc.List) != 1 {
			return true
		}
		var buf bytes.Buffer
		ast.Fprint(&buf, nil, nil, nil)
		ts := exprString(cc.List[0])
		switch ts {
		case "[]interface{}":
			// for i, v := range flags.([]interface{}) { bits[i] = byte(v.(int)) }
			if len(cc.Body) == 1 {
				if rs, ok := cc.Body[0].(*ast.RangeStmt); ok && len(rs.Body.List) == 1 &&
					stmtString(rs.Body.List[0]) == "bits[i] = byte(v.(int))" {
					arrayForm = "ArrayBytes"
				}
			}
		case "map[string]interface{}":
			for _, st := range cc.Body {
				ifs, ok := st.(*ast.IfStmt)
				if !ok {
					out = append(out, loadEntry{unknown: stmtString(st), where: pos(st)})
					continue
				}
				e := loadEntry{where: pos(ifs)}
				okShape := false
				if as, ok := ifs.Init.(*ast.AssignStmt); ok && len(as.Lhs) == 2 && len(as.Rhs) == 1 &&
					exprString(ifs.Cond) == exprString(as.Lhs[1])+" && "+exprString(as.Lhs[0]) && ifs.Else == nil {
					if ta, ok := as.Rhs[0].(*ast.TypeAssertExpr); ok && exprString(ta.Type) == "bool" {
						if ix, ok := ta.X.(*ast.IndexExpr); ok && exprString(ix.X) == "v" {
							if bl, ok := ix.Index.(*ast.BasicLit); ok && bl.Kind == token.STRING && len(ifs.Body.List) == 1 {
								key, _ := strconv.Unquote(bl.Value)
								if es, ok := ifs.Body.List[0].(*ast.ExprStmt); ok {
									if call, ok := es.X.(*ast.CallExpr); ok && exprString(call.Fun) == "bits.Set" && len(call.Args) == 1 {
										if id, ok := call.Args[0].(*ast.Ident); ok {
											if v, ok := vals[id.Name]; ok {
												e.key, e.cst, e.bit = key, id.Name, v
												okShape = true
											}
										}
									}
								}
							}
						}
					}
				}
				if !okShape {
					e.unknown = stmtString(ifs)
				}
				out = append(out, e)
			}
		}
		return true
	})
	return
}

type saveEntry struct {
	field, cst string
	bit        int
	where      string
	unknown    string
}

// return accessFlags{ Field: bits.IsSet(AccessX), ... }, nil
func saveTable(f *ast.File, vals map[string]int) (out []saveEntry) {
	fd := findMethod(f, "AccessBitmap", "MarshalYAML")
	if fd == nil {
		return []saveEntry{{unknown: "MarshalYAML not found"}}
	}
	if len(fd.Body.List) != 1 {
		return []saveEntry{{unknown: "MarshalYAML body is not a single return"}}
	}
	rs, ok := fd.Body.List[0].(*ast.ReturnStmt)
	if !ok || len(rs.Results) != 2 {
		return []saveEntry{{unknown: "MarshalYAML body is not a return of two values"}}
	}
	cl, ok := rs.Results[0].(*ast.CompositeLit)
	if !ok || exprString(cl.Type) != "accessFlags" {
		return []saveEntry{{unknown: "MarshalYAML does not return accessFlags{...}"}}
	}
	for _, el := range cl.Elts {
		e := saveEntry{where: pos(el)}
		kv, ok := el.(*ast.KeyValueExpr)
		good := false
		if ok {
			if call, ok := kv.Value.(*ast.CallExpr); ok && exprString(call.Fun) == "bits.IsSet" && len(call.Args) == 1 {
				if id, ok := call.Args[0].(*ast.Ident); ok {
					if v, ok := vals[id.Name]; ok {
						e.field, e.cst, e.bit = exprString(kv.Key), id.Name, v
						good = true
					}
				}
			}
		}
		if !good {
			e.unknown = exprString(el)
		}
		out = append(out, e)
	}
	return
}

// accessFlags struct: field -> yaml key
func saveTags(f *ast.File) (fields []string, tags map[string]string, where map[string]string) {
	tags = map[string]string{}
	where = map[string]string{}
	ast.Inspect(f, func(n ast.Node) bool {
		ts, ok := n.(*ast.TypeSpec)
		if !ok || ts.Name.Name != "accessFlags" {
			return true
		}
		st, ok := ts.Type.(*ast.StructType)
		if !ok {
			return false
		}
		for _, fl := range st.Fields.List {
			for _, nm := range fl.Names {
				key := nm.Name // yaml.v3 default would be lower-cased; the code always tags
				tagged := false
				if fl.Tag != nil {
					t, _ := strconv.Unquote(fl.Tag.Value)
					if i := strings.Index(t, `yaml:"`); i >= 0 {
						rest := t[i+6:]
						if j := strings.Index(rest, `"`); j >= 0 {
							key = strings.Split(rest[:j], ",")[0]
							tagged = true
						}
					}
				}
				if !tagged {
					key = strings.ToLower(nm.Name)
				}
				typ := exprString(fl.Type)
				if typ != "bool" {
					key = "<non-bool field " + nm.Name + ">"
				}
				fields = append(fields, nm.Name)
				tags[nm.Name] = key
				where[nm.Name] = pos(nm)
			}
		}
		return false
	})
	return
}

func genAccess(repo, out string) {
	f := parseFile(filepath.Join(repo, "hotline", "access.go"))
	names, vals, where := intConsts(f, "Access")
	var b bytes.Buffer
	b.WriteString("(* GENERATED by /verif/translator from hotline/access.go — do not edit. *)\n")
	b.WriteString("From Coq Require Import List NArith String.\nImport ListNotations.\nLocal Open Scope string_scope.\n\n")
	b.WriteString("(* Access* constants *)\nDefinition access_consts : list (string * nat) := [\n")
	for i, n := range names {
		sep := ";"
		if i == len(names)-1 {
			sep = ""
		}
		fmt.Fprintf(&b, "  (%s, %d%%nat)%s (* %s *)\n", coqStr(n), vals[n], sep, where[n])
	}
	b.WriteString("].\n\n")

	lt, arrayForm := loadTable(f, vals)
	b.WriteString("(* AccessBitmap.UnmarshalYAML, named-flag form: yaml key -> bit set when the key is true.\n   An entry of unexpected shape is emitted with bit 999. *)\n")
	b.WriteString("Definition load_table : list (string * nat) := [\n")
	for i, e := range lt {
		sep := ";"
		if i == len(lt)-1 {
			sep = ""
		}
		if e.unknown != "" {
			fmt.Fprintf(&b, "  (%s, 999%%nat)%s (* UNKNOWN SHAPE %s *)\n", coqStr("<unknown> "+e.unknown), sep, e.where)
		} else {
			fmt.Fprintf(&b, "  (%s, %d%%nat)%s (* %s %s *)\n", coqStr(e.key), e.bit, sep, e.cst, e.where)
		}
	}
	b.WriteString("].\n\n")
	fmt.Fprintf(&b, "(* legacy array form: ArrayBytes = `for i, v := range seq { bits[i] = byte(v.(int)) }` *)\nInductive array_form := ArrayBytes | UnknownArrayForm.\nDefinition load_array_form : array_form := %s.\n\n",
		map[bool]string{true: "ArrayBytes", false: "UnknownArrayForm"}[arrayForm == "ArrayBytes"])

	sv := saveTable(f, vals)
	fields, tags, twhere := saveTags(f)
	b.WriteString("(* AccessBitmap.MarshalYAML: accessFlags field -> bit read with IsSet *)\nDefinition save_fields : list (string * nat) := [\n")
	for i, e := range sv {
		sep := ";"
		if i == len(sv)-1 {
			sep = ""
		}
		if e.unknown != "" {
			fmt.Fprintf(&b, "  (%s, 999%%nat)%s (* UNKNOWN SHAPE %s *)\n", coqStr("<unknown> "+e.unknown), sep, e.where)
		} else {
			fmt.Fprintf(&b, "  (%s, %d%%nat)%s (* %s %s *)\n", coqStr(e.field), e.bit, sep, e.cst, e.where)
		}
	}
	b.WriteString("].\n\n(* accessFlags struct: field -> yaml key (struct tag) *)\nDefinition save_tags : list (string * string) := [\n")
	for i, fn := range fields {
		sep := ";"
		if i == len(fields)-1 {
			sep = ""
		}
		fmt.Fprintf(&b, "  (%s, %s)%s (* %s *)\n", coqStr(fn), coqStr(tags[fn]), sep, twhere[fn])
	}
	b.WriteString("].\n")
	writeIfChanged(filepath.Join(out, "AccessTables.v"), b.Bytes())
}

func main() {
	repo := flag.String("repo", "/repo", "repository root")
	out := flag.String("out", "", "output directory (coq/Gen)")
	flag.Parse()
	if err := os.MkdirAll(*out, 0755); err != nil {
		panic(err)
	}
	genAccess(*repo, *out)
	for _, g := range extraGenerators {
		g(*repo, *out)
	}
	_ = sort.Strings
}

var extraGenerators []func(repo, out string)
