#!/bin/sh
# ./check.sh <Cxx> <quick|thorough>
cd "$(dirname "$0")" || exit 2
export GOFLAGS=-mod=mod GOPROXY=off GOSUMDB=off GOTOOLCHAIN=local TZ=UTC
exec python3 tools/check.py "$@"
